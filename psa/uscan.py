"""Driver for engine U: builds entry environments from signatures, explores a function for every combination of
substance kinds / optional arguments, and aggregates sinks and flags per site.  Results are memoised per model so
that the properties sharing a function do not re-explore it."""
from __future__ import annotations

import ast
import itertools

from .model import AnalysisError, unparse, enclosing_stmt
from .unitai import (explore, Result, Subst, Cont, Obj, S, UserStr, NONE, KINDS, Incomplete, Lit, Num, Other, Tup, ListV)

_cache = {}


class Scan:
    def __init__(self, qualname):
        self.qualname = qualname
        self.paths = 0
        self.sink_checks = 0
        self.sinks = {}        # (line, category) -> count
        self.flags = {}        # (line, category) -> sorted list of messages
        self.variants = 0
        self.outcomes = []     # (variant label, kind, value, line, interp)
        self.incomplete = None
        self.bound = {}

    def add(self, label, R: Result):
        self.paths += R.paths
        self.sink_checks += R.sink_checks
        for k, c in R.sinks.items():
            self.sinks[k] = self.sinks.get(k, 0) + c
        for (line, cat, msg), c in R.flags.items():
            self.flags.setdefault((line, cat), set()).add(msg)
        for o in R.outcomes:
            self.outcomes.append((label,) + tuple(o))
        for k, v in R.bound.items():
            self.bound.setdefault(k, set()).update(v)
        self.variants += 1


def alternatives_for(fi, pname, position, opts):
    """Abstract values a parameter ranges over: list of (label, factory)."""
    ann = (fi.annotation(pname) or '').replace("'", '')
    override = (opts or {}).get('params', {}).get(pname)
    if override is not None:
        return override
    a = fi.node.args
    allp = a.posonlyargs + a.args
    default = None
    nd = len(a.defaults)
    idx = [x.arg for x in allp].index(pname) if pname in [x.arg for x in allp] else None
    if idx is not None and idx >= len(allp) - nd:
        default = a.defaults[idx - (len(allp) - nd)]
    alts = []
    if position == 0 and fi.is_method and not fi.is_static:
        cname = fi.cls.name
        if cname == 'Container':
            return [('', lambda: Cont('self'))]
        return [('', lambda: Obj(cname))]
    has_s, has_c = 'Substance' in ann, 'Container' in ann
    if has_s:
        if 'Iterable' in ann or 'list' in ann:
            alts += [(f"{pname}=[{k}]", (lambda k=k: ListV([Subst(k, pname + '0')]))) for k in KINDS]
            if (opts or {}).get('empty_collections'):
                alts.append((f"{pname}=[]", lambda: ListV([])))
        alts += [(f"{pname}={k}", (lambda k=k: Subst(k, pname))) for k in KINDS]
    if has_c:
        alts.append((f"{pname}=container", lambda: Cont(pname)))
    if not alts:
        if 'Plate' in ann:
            alts.append(('', lambda: Obj('PlateSlicer' if 'PlateSlicer' in ann and 'Plate |' not in ann else 'Plate')))
        elif 'str' in ann or pname in ('unit', 'units', 'quantity', 'concentration', 'max_volume'):
            alts.append(('', lambda: UserStr(pname)))
        elif 'float' in ann or 'int' in ann:
            alts.append(('', lambda: Other('number')))
        else:
            alts.append(('', lambda: Other('arg:' + pname)))
    if default is not None and isinstance(default, ast.Constant) and default.value is None:
        alts.append((f"{pname}=None", lambda: NONE))
    return alts


def variants(fi, opts=None):
    a = fi.node.args
    names = [x.arg for x in a.posonlyargs + a.args + a.kwonlyargs]
    per = [alternatives_for(fi, p, i, opts) for i, p in enumerate(names)]
    extra = {}
    if a.vararg:
        extra[a.vararg.arg] = lambda: Tup()
    if a.kwarg:
        extra[a.kwarg.arg] = lambda: (opts or {}).get('kwargs', lambda: Other('kwargs'))()
    for combo in itertools.product(*per):
        label = ' '.join(l for l, f in combo if l)

        def make_env(I, combo=combo):
            env = {n: f() for n, (l, f) in zip(names, combo)}
            for k, f in extra.items():
                env[k] = f()
            return env
        yield label, make_env


def scan(model, qualname, opts=None, key=None):
    ck = (model.serial, qualname, key)
    if ck in _cache:
        return _cache[ck]
    if len(_cache) > 400:
        _cache.clear()
    fi = model.func(qualname)
    sc = Scan(qualname)
    try:
        for label, mk in variants(fi, opts):
            R = explore(model, fi, mk, (opts or {}).get('interp', None))
            sc.add(label, R)
    except Incomplete as exc:
        sc.incomplete = str(exc)
    _cache[ck] = sc
    return sc


def site_text(model, fi, line):
    """Normalised text of the statement at `line` of the function's module (for stable finding keys)."""
    best = None
    top = fi
    while top.parent is not None:
        top = top.parent
    for n in ast.walk(top.node):
        if isinstance(n, ast.stmt) and getattr(n, 'lineno', None) is not None:
            if n.lineno <= line <= getattr(n, 'end_lineno', n.lineno):
                if best is None or (n.lineno >= best.lineno and (getattr(n, 'end_lineno', 0) - n.lineno) <=
                                    (getattr(best, 'end_lineno', 0) - best.lineno)):
                    best = n
    if best is None:
        return f"line {line}"
    if isinstance(best, (ast.If, ast.For, ast.While)):
        head = best.test if hasattr(best, 'test') else best.iter
        return unparse(head, 90)
    return unparse(best, 90)


def _line_in_live_function(model, fi, line):
    for f in model.functions(fi.mod.rel):
        if f.parent is None and f.node.lineno <= line <= getattr(f.node, 'end_lineno', f.node.lineno):
            return True
    return False


def report_sinks(ctx, rule_of, sc: Scan, fi=None, categories=None, why_of=None, pass_only=(), line_filter=None):
    """Turn the sinks of a scan into obligations: one per (site, category); flagged sites are violations.
    `rule_of(category)` -> rule id or None (category not claimed by the calling property)."""
    model = ctx.model
    fi = fi or model.func(sc.qualname)
    if sc.incomplete:
        raise AnalysisError(f"UnitAI cannot interpret {sc.qualname}: {sc.incomplete}")
    ctx.functions_analysed.add(sc.qualname)
    ctx.count('unitai_paths', sc.paths)
    ctx.count('unitai_sink_checks', sc.sink_checks)
    n = 0
    top = fi
    while top.parent is not None:
        top = top.parent
    lo, hi = top.node.lineno, getattr(top.node, 'end_lineno', top.node.lineno)
    for (line, cat), count in sorted(sc.sinks.items()):
        if not (lo <= line <= hi) and _line_in_live_function(model, fi, line):
            continue            # a sink inside an interpreted callee that is scanned on its own
        # (a line outside the function that belongs to no live function is code of an expanded helper: it counts here)
        rule = rule_of(cat)
        if rule is None or (categories is not None and cat not in categories):
            continue
        if line_filter is not None and not line_filter(line):
            continue
        msgs = sorted(sc.flags.get((line, cat), ()))
        real = [m for m in msgs if '?bad' not in m]
        ok = not msgs or not real
        if msgs and not real:
            continue            # secondary effect of a prefix-strip violation reported at its own site
        if real and cat in pass_only:
            continue            # a mismatch of this category is another property's matter
        text = site_text(model, fi, line)
        ctx.ob(rule, fi, line, f"{cat} at `{text}`", ok, fact=f"{count} evaluations over all paths and kinds",
               why='; '.join(real[:3]), key=f"{cat}: {text}")
        n += 1
    return n

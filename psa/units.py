"""Scaled units of measure: monomials  coef * prod(symbolic prefix ^ e) * mol^a g^b L^c U^d.

Symbolic prefixes (P of a user-supplied unit string; PVS / PMS = the prefixes of config.volume_storage_unit /
config.moles_storage_unit) are never instantiated: an analysis that goes through with them free holds for every
setting at once."""
from __future__ import annotations

import math

SI = {'n': 1e-9, 'u': 1e-6, 'µ': 1e-6, 'm': 1e-3, 'c': 1e-2, 'd': 1e-1, '': 1.0, 'da': 1e1, 'k': 1e3, 'M': 1e6}
# the full SI table the prefix dictionary of the library is compared against (C14.R1)
SI_FULL = {'q': 1e-30, 'r': 1e-27, 'y': 1e-24, 'z': 1e-21, 'a': 1e-18, 'f': 1e-15, 'p': 1e-12, 'n': 1e-9, 'u': 1e-6,
           'µ': 1e-6, 'μ': 1e-6, 'm': 1e-3, 'c': 1e-2, 'd': 1e-1, '': 1.0, 'da': 1e1, 'h': 1e2, 'k': 1e3, 'M': 1e6,
           'G': 1e9, 'T': 1e12, 'P': 1e15, 'E': 1e18, 'Z': 1e21, 'Y': 1e24, 'R': 1e27, 'Q': 1e30}
BASES = ('mol', 'g', 'L', 'U')


class U:
    __slots__ = ('coef', 'dims', 'syms')

    def __init__(self, coef=1.0, dims=None, syms=None):
        self.coef = float(coef)
        self.dims = {k: v for k, v in (dims or {}).items() if v}
        self.syms = {k: v for k, v in (syms or {}).items() if v}

    def __mul__(self, o):
        d = dict(self.dims)
        s = dict(self.syms)
        for k, v in o.dims.items():
            d[k] = d.get(k, 0) + v
        for k, v in o.syms.items():
            s[k] = s.get(k, 0) + v
        return U(self.coef * o.coef, d, s)

    def inv(self):
        return U(1.0 / self.coef, {k: -v for k, v in self.dims.items()}, {k: -v for k, v in self.syms.items()})

    def __truediv__(self, o):
        return self * o.inv()

    def scaled(self, k):
        return U(self.coef * k, self.dims, self.syms)

    def same(self, o):
        return self.dims == o.dims and self.syms == o.syms and math.isclose(self.coef, o.coef, rel_tol=1e-9)

    def same_dim(self, o):
        return self.dims == o.dims

    def storage_only_difference(self, o):
        """Same dimension, the quotient involves a storage prefix symbol (PVS/PMS): a storage-labelling error."""
        q = self / o
        return not q.dims and any(k in ('PVS', 'PMS') for k in q.syms)

    def has_storage_symbol(self):
        return any(k in ('PVS', 'PMS') for k in self.syms)

    def dimension(self):
        return tuple(sorted(self.dims.items()))

    def __repr__(self):
        parts = []
        if not math.isclose(self.coef, 1.0, rel_tol=1e-9):
            parts.append(f"{self.coef:g}")
        parts += [k if v == 1 else f"{k}^{v}" for k, v in sorted(self.syms.items())]
        parts += [k if v == 1 else f"{k}^{v}" for k, v in sorted(self.dims.items())]
        return '*'.join(parts) or '1'


ONE = U()


def base(b):
    if b == 'M':
        return U(1.0, {'mol': 1, 'L': -1})
    return U(1.0, {b: 1})


def sym(p):
    return U(1.0, None, {p: 1})


mL = U(1e-3, {'L': 1})
PVS_L = sym('PVS') * base('L')
PMS_MOL = sym('PMS') * base('mol')


def parse_literal_unit(text, bases=('mol', 'g', 'L', 'U', 'M')):
    """'mL' -> 1e-3*L; None if `text` is not <SI prefix><base>."""
    for b in bases:
        if text.endswith(b) and text[:-len(b)] in SI:
            return base(b).scaled(SI[text[:-len(b)]])
    return None


def AMT(kind):
    """Unit of a stored amount of a substance of the given kind."""
    return base('U') if kind == 'enzyme' else PMS_MOL


def AB(kind):
    """Base amount unit of a kind (mol or U)."""
    return base('U') if kind == 'enzyme' else base('mol')

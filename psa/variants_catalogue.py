"""Catalogue of seeded variants (DESIGN appendix B).  Snippets are matched against `ast.unparse` of the named function, so
formatting and comments of the repository do not matter."""
from .variants import Variant as V

S = 'pyplate/slicer.py'
C = []


def add(*a, **k):
    C.append(V(*a, **k))


# ------------------------------------------------------------------------------------------------ C01
add('c01-drop-subtraction', ['C01'], 'fire', 'Container._transfer',
    'round(source_container.contents[substance] - to_transfer, config.internal_precision)',
    'round(source_container.contents[substance], config.internal_precision)', 'source keeps what it gave away')
add('c01-half-on-one-side', ['C01'], 'fire', 'Container._transfer',
    'to.contents.get(substance, 0) + to_transfer', 'to.contents.get(substance, 0) + to_transfer * 0.5',
    'destination receives half of what the source loses')
add('c01-skip-enzymes', ['C01', 'C02'], 'fire', 'Container._transfer',
    '        to_transfer = amount * ratio', '        if substance.is_enzyme():\n            continue\n        to_transfer = amount * ratio',
    'enzymes are not moved')
add('c01-closure-drops-result', ['C01'], 'fire', 'Container._transfer_slice',
    'elem, to_array[0] = Container.transfer(elem, to_array[0], quantity)',
    '_, to_array[0] = Container.transfer(elem, to_array[0], quantity)', 'the depleted well is not written back')
add('c01-apply-writes-other-key', ['C01', 'C07'], 'fire', 'Slicer.apply',
    'self.array.__setitem__(elem, result)', 'self.array.__setitem__(self.slices[0], result)',
    'list selections write every result into the first cell', module=S)
add('c01-swapped-results', ['C01'], 'fire', 'Recipe.bake',
    'source, dest = Container.transfer(source, dest, quantity)', 'dest, source = Container.transfer(source, dest, quantity)',
    'results written back crosswise')
add('c01-drop-overlap-gate', ['C01'], 'fire', 'PlateSlicer._transfer',
    'if (addressed[0] & addressed[1]).any():', 'if False:', 'overlapping regions of one plate are accepted again')
add('c01-drop-self-transfer-gate', ['C01'], 'fire', 'Recipe.transfer',
    'if isinstance(source, Container) and isinstance(destination, Container) and (source.name == destination_name):',
    'if False:', 'a container may be transferred into itself in a recipe')
add('c01-rename-local', ['C01', 'C02', 'C03', 'C10'], 'silent', 'Container._transfer',
    'to_transfer', 'moved_amount', 'rename of a local', count=99)
add('c01-different-rounding', ['C01'], 'fire', 'Container._transfer',
    'round(to.contents.get(substance, 0) + to_transfer, config.internal_precision)',
    'round(to.contents.get(substance, 0) + to_transfer, 3)', 'the two sides are rounded differently')

# ------------------------------------------------------------------------------------------------ C02
add('c02-moles-include-enzymes', ['C02'], 'fire', 'Container._transfer',
    'sum((amount for substance, amount in source_container.contents.items() if not substance.is_enzyme()))',
    'sum((amount for substance, amount in source_container.contents.items()))', 'total moles include activity units')
add('c02-ratio-over-destination', ['C02'], 'fire', 'Container._transfer',
    'ratio = volume_to_transfer / source_container.volume', 'ratio = volume_to_transfer / self.volume',
    'fraction measured on the destination')
add('c02-mass-skips-enzymes', ['C02'], 'fire', 'Container._transfer',
    "            source_unit = 'U' if substance.is_enzyme() else config.moles_storage_unit",
    "            if substance.is_enzyme():\n                continue\n            source_unit = 'U' if substance.is_enzyme() else config.moles_storage_unit",
    'total mass leaves out enzymes')
add('c02-inverted-ratio', ['C02'], 'fire', 'Container._transfer',
    'ratio = mass_to_transfer / total_mass', 'ratio = total_mass / mass_to_transfer', 'ratio inverted on the mass branch')
add('c02-no-cache', ['C02'], 'fire', 'Slicer.apply', 'numpy.vectorize(func, cache=True)', 'numpy.vectorize(func)',
    'numpy calls the per-well function once more on the first element', module=S, count=2)
add('c02-literal-quantity', ['C02'], 'fire', 'Container._transfer_slice',
    'Container.transfer(elem, to_array[0], quantity)', "Container.transfer(elem, to_array[0], '1 uL')",
    'nested transfer ignores the requested quantity')
add('c02-mass-in-mg', ['C02'], 'fire', 'Container._transfer',
    "Unit.convert_from(substance, amount, source_unit, 'g')", "Unit.convert_from(substance, amount, source_unit, 'mg')",
    'requested grams divided by total milligrams')
add('c02-flip-division-silent', ['C02', 'C03'], 'silent', 'Container._transfer',
    'moles_to_transfer = Unit.convert_to_storage(quantity_to_transfer, \'mol\')',
    'moles_requested = Unit.convert_to_storage(quantity_to_transfer, \'mol\')\n        moles_to_transfer = moles_requested',
    'introduce a temporary')

# ------------------------------------------------------------------------------------------------ C03
add('c03-capacity-ge', ['C03'], 'fire', 'Container._self_add', 'if new_volume > self.max_volume:',
    'if new_volume >= self.max_volume:', 'exact fill refused')
add('c03-capacity-other-object', ['C03'], 'fire', 'Container._transfer', 'if to.volume > to.max_volume:',
    'if to.volume > source_container.max_volume:', 'capacity of the wrong container')
add('c03-drop-sufficiency-gate', ['C03'], 'fire', 'Container._transfer',
    'if round(ratio, config.internal_precision) > 1:', 'if False:', 'overdraw accepted')
add('c03-drop-sign-gate', ['C03'], 'fire', 'Container._transfer', 'if ratio < 0:', 'if False:', 'negative transfer accepted')
add('c03-runtime-error', ['C03'], 'fire', 'Container._self_add', "raise ValueError('Exceeded maximum volume')",
    "raise RuntimeError('Exceeded maximum volume')", 'refusal type')
add('c03-positivity-weakened', ['C03', 'C05'], 'fire', 'Container.create_solution', 'any((x <= 0 for x in xs))',
    'any((x < 0 for x in xs))', 'zero amounts accepted')
add('c03-residual-partial', ['C03', 'C05'], 'fire', 'Container.create_solution', 'for i in range(len(a)):',
    'for i in range(n + 1):', 'over-determined rows are not tested')
add('c03-flip-operands', ['C03'], 'silent', 'Container._self_add', 'if new_volume > self.max_volume:',
    'if self.max_volume < new_volume:', 'operands flipped')
add('c03-fillto-gate-dropped', ['C03', 'C11'], 'fire', 'Container.fill_to',
    'if round(required_quantity, config.internal_precision) < 0:', 'if False:', 'fill below current accepted')
add('c03-unrounded-compare', ['C03'], 'fire', 'Container._self_add',
    'new_volume = round(self.volume + volume_to_add, config.internal_precision)', 'new_volume = self.volume + volume_to_add',
    'unrounded sum against rounded capacity')
add('c03-add-sign-gate-dropped', ['C03'], 'fire', 'Container._self_add',
    'if round(volume_to_add, config.internal_precision) < 0 or round(amount_to_add, config.internal_precision) < 0:',
    'if False:', 'negative additions accepted')
add('c03-csf-negative-ok', ['C03', 'C12'], 'fire', 'Container.create_solution_from', 'if x < 0 or y < 0:', 'if x < 0:',
    'negative solvent volume accepted')

# ------------------------------------------------------------------------------------------------ C04
add('c04-shallow-destination', ['C04'], 'fire', 'Container._transfer', 'deepcopy(self)', 'copy(self)',
    'destination contents shared with the argument')
add('c04-no-copy-in-add', ['C04'], 'fire', 'Container._add', 'destination = deepcopy(self)', 'destination = self',
    'argument mutated by _add')
add('c04-shallow-plate-in-slice-transfer', ['C04', 'C07'], 'fire', 'Container._transfer_slice',
    'source_slice.plate = deepcopy(source_slice.plate)', 'source_slice.plate = copy(source_slice.plate)',
    'wells array shared with the argument plate')
add('c04-shallow-plate-container-to-plate', ['C04', 'C07'], 'fire', 'PlateSlicer._transfer',
    'to.plate = deepcopy(to.plate)', 'to.plate = copy(to.plate)', 'wells array shared with the argument plate')
add('c04-uses-keeps-argument', ['C04'], 'fire', 'Recipe.uses', 'self.results[arg.name] = deepcopy(arg)',
    'self.results[arg.name] = arg', 'the recipe keeps the caller object')
add('c04-remove-shallow-is-fine', ['C04', 'C17'], 'silent', 'Container.remove', 'new_container = deepcopy(self)',
    'new_container = copy(self)', 'only direct fields of the copy are assigned')
add('c04-slice-remove-in-place', ['C04', 'C07'], 'fire', 'PlateSlicer.remove', 'new_slice.plate = deepcopy(self.plate)',
    'new_slice.plate = self.plate', 'wells of the argument plate are overwritten')
add('c04-mutate-cached-set', ['C04'], 'fire', 'Recipe.bake', 'step.substances_used = source.get_substances()',
    'step.substances_used = source.get_substances()\n            step.substances_used.add(None)',
    'a cached set is mutated')

# ------------------------------------------------------------------------------------------------ C05 / C12
add('c05-top-in-denominator-unit', ['C05'], 'fire', 'Container.create_solution', 'convert_one(substance, numerator)',
    'convert_one(substance, denominator)', 'solute term in the wrong unit')
add('c05-solvent-volume-in-L', ['C05'], 'fire', 'Container.create_solution', "solvent.get_volume('mL')",
    "solvent.get_volume('L')", 'density of the solvent container off by 1000')
add('c05-fake-density', ['C05'], 'fire', 'Container.create_solution', 'density=total_mass / total_volume',
    'density=total_mass / total_moles', 'density computed as molar mass')
add('c05-literal-mol-label', ['C05', 'C18'], 'fire', 'Container.create_solution',
    "'U' if substance.is_enzyme() else config.moles_storage_unit, 'g'", "'U' if substance.is_enzyme() else 'mol', 'g'",
    'stored amounts labelled mol')
add('c05-quantity-row-wrong-unit', ['C05'], 'fire', 'Container.create_solution',
    'numpy.roll(identity, i) * convert_one(substance, unit)', "numpy.roll(identity, i) * convert_one(substance, 'g')",
    'quantity row ignores the unit of the quantity')
add('c12-volume-factor', ['C12'], 'fire', 'Container.create_solution_from', 'd_s * 1000000.0', 'd_s * 1000.0',
    'volume numerator off by 1000', count=2)
add('c12-inverted-molarity', ['C12'], 'fire', 'Container.create_solution_from',
    'bottom = numpy.array([d_x / mw_x, d_y / mw_y])', 'bottom = numpy.array([mw_x / d_x, mw_y / d_y])',
    'moles per mL inverted')
add('c12-microlitres', ['C12'], 'fire', 'Container.create_solution_from', "f'{x} mL'", "f'{x} uL'",
    'solved millilitres transferred as microlitres')
add('c12-constant-respelled', ['C12'], 'silent', 'Container.create_solution_from', '1 / 1000.0', '0.001',
    'same constant', count=99)
add('c12-source-volume-in-L', ['C12'], 'fire', 'Container.create_solution_from',
    "volume = Unit.convert_from_storage(source.volume, 'mL')", "volume = Unit.convert_from_storage(source.volume, 'L')",
    'density of the stock off by 1000')
add('c12-dead-branch', ['C12'], 'fire', 'Container.create_solution_from', "elif quantity_unit == 'mol':",
    "elif quantity_value == 'mol':", 'moles row unreachable')
add('c12-residual-dropped', ['C12'], 'fire', 'Container.create_solution_from', 'return (source, solvent, new_solution)',
    'return (source, new_solution)', 'depleted solvent container not returned')

# ------------------------------------------------------------------------------------------------ C06 / C14 / C18
add('c06-factor-100', ['C06'], 'fire', 'Unit.convert_from', 'result = quantity * 1000.0 * substance.density',
    'result = quantity * 100.0 * substance.density', 'L -> U factor')
add('c06-density-multiplied', ['C06'], 'fire', 'Unit.convert_from', 'result_in_mL = quantity / substance.density',
    'result_in_mL = quantity * substance.density', 'g -> L')
add('c06-target-prefix-multiplied', ['C06'], 'fire', 'Unit.convert_from',
    'return result / Unit.convert_prefix_to_multiplier(prefix)', 'return result * Unit.convert_prefix_to_multiplier(prefix)',
    'target prefix applied the wrong way')
add('c06-strip-one-char', ['C06', 'C14'], 'fire', 'Unit.convert_from', 'prefix = from_unit[:-len(suffix)]',
    'prefix = from_unit[:-1]', 'mol units lose two characters of their base')
add('c06-molar-mass-for-density', ['C06'], 'fire', 'Unit.convert_from',
    'result = value_in_mL * substance.density / substance.mol_weight', 'result = value_in_mL * substance.mol_weight / substance.density',
    'L -> mol inverted')
add('c06-reordered-factors', ['C06'], 'silent', 'Unit.convert_from', 'result = quantity * 1000.0 * substance.density',
    'result = substance.density * quantity * 1000.0', 'commuted product')
add('c06-enzyme-density-solid', ['C06'], 'fire', 'Substance.enzyme', 'substance.density = config.default_enzyme_density',
    'substance.density = config.default_solid_density', 'enzyme density stored in g/mL')
add('c06-inverse-activity', ['C06'], 'fire', 'Substance.enzyme', 'substance.specific_activity = 1 / value',
    'substance.specific_activity = value', 'g/U given as U/g')
add('c14-prefix-table', ['C14', 'C06'], 'fire', 'Unit.convert_prefix_to_multiplier', "'d': 0.1", "'d': 0.01", 'deci = 1e-2')
add('c14-percent', ['C14'], 'fire', 'Unit.parse_concentration', 'numerator[0] = float(numerator[0]) / 100',
    'numerator[0] = float(numerator[0])', 'percent not divided by 100')
add('c14-molal', ['C14'], 'fire', 'Unit.parse_concentration', "'mol/kg'", "'mol/g'", 'm read as mol/g')
add('c14-denominator-prefix', ['C14'], 'fire', 'Unit.parse_concentration',
    'numerator[0] /= Unit.convert_prefix_to_multiplier(denominator[0][:-len(unit)])',
    'numerator[0] *= Unit.convert_prefix_to_multiplier(denominator[0][:-len(unit)])', 'denominator prefix multiplied')
add('c14-quantity-prefix-divided', ['C14'], 'fire', 'Unit.parse_quantity',
    'value = value * Unit.convert_prefix_to_multiplier(prefix)', 'value = value / Unit.convert_prefix_to_multiplier(prefix)',
    'prefix divided')
add('c14-capacity-unit-ignored', ['C14'], 'fire', 'Container.__init__', "if max_volume_unit != 'L':", 'if False:',
    'capacity unit discarded')
add('c18-literal-umol', ['C18', 'C02', 'C10'], 'fire', 'Container._transfer',
    "source_unit = 'U' if substance.is_enzyme() else config.moles_storage_unit",
    "source_unit = 'U' if substance.is_enzyme() else 'umol'", 'stored amounts labelled umol')
add('c18-strip-two', ['C18', 'C06'], 'fire', 'Unit.convert_to_storage', 'config.moles_storage_unit[:-3]',
    'config.moles_storage_unit[:-2]', 'wrong strip length')
add('c18-first-char', ['C18', 'C06', 'C14'], 'fire', 'Unit.convert_from_storage', 'config.volume_storage_unit[:-1]',
    'config.volume_storage_unit[0]', 'first character as prefix')
add('c18-power-of-ten', ['C18', 'C10'], 'fire', 'Container.get_volume', 'return Unit.convert_from_storage(self.volume, unit)',
    "return Unit.convert_from_storage(self.volume, 'L') / Unit.convert_prefix_to_multiplier(unit[:-1]) if unit != 'uL' else self.volume",
    'stored value returned as microlitres')

# ------------------------------------------------------------------------------------------------ C07 / C08
add('c07-remove-default', ['C07', 'C17'], 'fire', 'PlateSlicer.remove', 'elem.remove(what)', 'elem.remove()',
    'selector not forwarded')
add('c07-fill-whole-plate', ['C07'], 'fire', 'PlateSlicer.fill_to', 'new_slice.apply(', 'new_slice.plate[:].apply(',
    'all wells are filled')
add('c07-many-to-one-arity', ['C07'], 'fire', 'PlateSlicer._transfer',
    'Container.transfer(elem, to_array[0][0], quantity)', 'to_array[0][0].transfer(elem, quantity)',
    'many-to-one calls a static method with two arguments')
add('c07-plate-source-unwrapped', ['C07'], 'fire', 'PlateSlicer._transfer', '    if isinstance(frm, Plate):\n        frm = frm[:]\n',
    '', 'a Plate source reaches slice attributes')
add('c07-shape-check-weakened', ['C07'], 'fire', 'PlateSlicer._transfer',
    'elif frm.size == to.size and frm.shape == to.shape:', 'elif frm.size == to.size:', 'shape no longer compared')
add('c08-stale-solvent', ['C08'], 'fire', 'Recipe.bake', 'solvent = self.results[solvent.name]', 'solvent = solvent',
    'declaration-time solvent container')
add('c08-result-under-wrong-name', ['C08', 'C01'], 'fire', 'Recipe.bake',
    'self.results[dest_name] = dest if not isinstance(dest, PlateSlicer) else dest.plate',
    'self.results[source_name] = dest if not isinstance(dest, PlateSlicer) else dest.plate', 'destination stored as source')
add('c08-reversed-steps', ['C08'], 'fire', 'Recipe.bake', 'for step in self.steps:', 'for step in reversed(self.steps):',
    'steps run backwards')
add('c08-stale-remove-target', ['C08'], 'fire', 'Recipe.bake',
    "            else:\n                dest = self.results[dest_name]\n            if isinstance(what, Substance):",
    "            else:\n                dest = dest\n            if isinstance(what, Substance):", 'remove acts on the declared object')
add('c08-effect-at-declaration', ['C08'], 'fire', 'Recipe.dilute',
    "self.steps.append(RecipeStep(self, 'dilute', None, destination, solute, concentration, solvent, new_name))",
    "self.results[destination.name] = self.results[destination.name].dilute(solute, concentration, solvent, new_name)\n    self.steps.append(RecipeStep(self, 'dilute', None, destination, solute, concentration, solvent, new_name))",
    'dilution happens when the step is declared')

# ------------------------------------------------------------------------------------------------ C09 / C15
add('c09-before-reads-after', ['C09'], 'fire', 'Recipe.get_substance_used',
    'before_substances += step.to[0].contents.get(substance, 0)', 'before_substances += step.to[1].contents.get(substance, 0)',
    'container destinations always report zero')
add('c09-trash-subtracted', ['C09'], 'fire', 'Recipe.get_substance_used', 'after_substances += step.trash.get(substance, 0)',
    'after_substances -= step.trash.get(substance, 0)', 'discarded amounts counted negatively')
add('c09-stage-start-plus-one', ['C09', 'C15', 'C16'], 'fire', 'Recipe.start_stage',
    'self.current_stage_start = len(self.steps)', 'self.current_stage_start = len(self.steps) + 1', 'first step of a stage lost')
add('c09-membership-on-wrong-record', ['C09'], 'fire', 'Recipe.get_substance_used',
    'if step.frm[0] is not None and step.frm[0].name in dest_names:', 'if step.frm[0] is not None and step.to[0].name in dest_names:',
    'source side counted when the destination is in the set')
add('c09-substances-from-destination', ['C09'], 'fire', 'Recipe.bake', 'step.substances_used = source.get_substances()',
    'step.substances_used = self.results[dest_name].get_substances()', 'substances of an empty destination hide the transfer')
add('c09-unit-literal', ['C09', 'C18'], 'fire', 'Recipe.get_substance_used',
    "from_unit = 'U' if substance.is_enzyme() else config.moles_storage_unit", "from_unit = 'U' if substance.is_enzyme() else 'umol'",
    'literal storage unit')
add('c15-after-picks-before', ['C15'], 'fire', 'Recipe.get_amount_remaining', 'query_container = step.to[1]',
    'query_container = step.to[0]', "mode 'after' returns the state before")
add('c15-otypes-dropped', ['C15'], 'fire', 'Recipe.get_amount_remaining', 'np.vectorize(plate_helper, otypes=[float])',
    'np.vectorize(plate_helper)', 'integer dtype from an empty first well')
add('c15-outflow-as-inflow', ['C15'], 'fire', 'Recipe.get_container_flows',
    "flows['out'] += sum(map(helper, step.frm[0].contents.items()))", "flows['in'] += sum(map(helper, step.frm[0].contents.items()))",
    'withdrawals counted as inflow')
add('c15-builtin-round', ['C15'], 'fire', 'Recipe.get_container_flows',
    '        if isinstance(flows[key], np.ndarray):\n            flows[key] = flows[key].round(precision)\n        else:\n            flows[key] = round(flows[key], precision)',
    '        flows[key] = round(flows[key], precision)', 'builtin round on arrays')
add('c15-forward-scan-for-after', ['C15'], 'fire', 'Recipe.get_amount_remaining',
    "    if mode == 'after':\n        steps = reversed(steps)", "    if mode == 'before':\n        steps = reversed(steps)",
    'first instead of last step')

# ------------------------------------------------------------------------------------------------ C10 / C17
add('c10-recompute-from-other', ['C10', 'C17'], 'fire', 'Container.remove',
    'for substance, value in new_container.contents.items():', 'for substance, value in self.contents.items():',
    'volume recomputed from the unfiltered contents')
add('c10-concentration-skips-solids', ['C10'], 'fire', 'Container.get_concentration',
    '            if substance.is_enzyme():\n                denominator +=',
    '            if substance.is_solid():\n                continue\n            if substance.is_enzyme():\n                denominator +=',
    'mass denominators leave out solids')
add('c10-observer-wrong-label', ['C10', 'C18'], 'fire', 'PlateSlicer.get_moles',
    'Unit.convert_from(subs, elem.contents.get(subs, 0), config.moles_storage_unit, unit)',
    "Unit.convert_from(subs, elem.contents.get(subs, 0), 'mol', unit)", 'stored moles labelled mol')
add('c10-drop-volume-update', ['C10'], 'fire', 'Container._self_add', '    self.volume = new_volume\n', '    pass\n',
    'contents grow, cached volume does not')
add('c17-inverted-filter', ['C17'], 'fire', 'Container.remove', 'if what not in (substance._type, substance)',
    'if what in (substance._type, substance)', 'keeps exactly what should go')
add('c17-class-only', ['C17'], 'fire', 'Container.remove', 'if what not in (substance._type, substance)',
    'if what != substance._type', 'a specific substance is never removed')
add('c17-trash-all-wells', ['C17'], 'fire', 'Recipe.bake',
    'for before, after in zip(step.to[0].wells.flatten(), step.to[1].wells.flatten()):\n                    for substance in set.difference(before.get_substances(), after.get_substances()):',
    'for before in step.to[0].wells.flatten():\n                    for substance in before.get_substances():',
    'everything in the plate counted as discarded')

# ------------------------------------------------------------------------------------------------ C11
add('c11-adds-solute', ['C11'], 'fire', 'Container.dilute', 'destination._add(solvent, needed_umoles)',
    'destination._add(solute, needed_umoles)', 'solute is added instead of solvent')
add('c11-higher-target-accepted', ['C11'], 'fire', 'Container.dilute', 'if new_ratio > current_ratio:', 'if False:',
    'concentrating by dilution')
add('c11-ratio-unit-slip', ['C11'], 'fire', 'Unit.calculate_concentration_ratio', 'c /= 1000', 'c *= 1000',
    'g/L treated as kg/mL', count=1)
add('c11-second-add', ['C11'], 'fire', 'Container.fill_to',
    "result = self._add(solvent, f'{required_quantity} {quantity_unit}')",
    "result = self._add(solvent, f'{required_quantity} {quantity_unit}')._add(solvent, f'{required_quantity} {quantity_unit}')",
    'solvent added twice')
add('c11-fill-unit-literal', ['C11', 'C18'], 'fire', 'Container.fill_to',
    "('U' if substance.is_enzyme() else config.moles_storage_unit)", "('U' if substance.is_enzyme() else 'mol')",
    'current quantity off by the storage scale')

# ------------------------------------------------------------------------------------------------ C13
add('c13-no-decrement', ['C13'], 'fire', 'Slicer.parse_slice', 'start -= 1', 'start -= 0', 'integer slice start not shifted', module=S)
add('c13-label-stop-exclusive', ['C13'], 'fire', 'Slicer.parse_slice', 'stop = labels.index(stop) + 1',
    'stop = labels.index(stop)', 'label stop no longer inclusive', module=S)
add('c13-int-row-shifted', ['C13'], 'fire', 'Slicer.__init__', 'self.slices = (slice(item - 1, item), slice(None))',
    'self.slices = (slice(item, item + 1), slice(None))', 'row i selects row i+1', module=S)
add('c13-range-from-zero', ['C13'], 'fire', 'Slicer.resolve_labels', 'if not 1 <= item <= len(labels):',
    'if not 0 <= item <= len(labels):', 'index 0 selects the last row', module=S)
add('c13-column-against-row-labels', ['C13'], 'fire', 'Slicer.__init__',
    'col = self.resolve_labels(item[1], self.col_labels)', 'col = self.resolve_labels(item[1], self.row_labels)',
    'column resolved on the row axis', module=S)
add('c13-step-zero-accepted', ['C13'], 'fire', 'Slicer.parse_slice', 'if step is not None and step < 1:',
    'if step is not None and step < 0:', 'zero step accepted', module=S)
add('c13-range-respelled', ['C13'], 'silent', 'Slicer.resolve_labels', 'if not 1 <= item <= len(labels):',
    'if item < 1 or item > len(labels):', 'same range test', module=S)
add('c13-zero-based-column-labels', ['C13'], 'fire', 'Plate.__init__', "f'{i + 1}'", "f'{i}'", "columns labelled '0'..")
add('c13-duplicates-accepted', ['C13'], 'fire', 'Plate.__init__', 'if len(rows) != len(set(rows)):', 'if False:',
    'duplicate row labels')
add('c13-tuple-swapped', ['C13'], 'fire', 'Slicer.parse_tuple',
    'return (self.resolve_labels(item[0], self.row_labels), self.resolve_labels(item[1], self.col_labels))',
    'return (self.resolve_labels(item[1], self.row_labels), self.resolve_labels(item[0], self.col_labels))',
    'list elements given as tuples are transposed', module=S)

# ------------------------------------------------------------------------------------------------ C16
for _m in ('start_stage', 'end_stage', 'uses', 'transfer', 'remove', 'dilute', 'fill_to', 'bake'):
    add(f"c16-no-lock-gate-{_m}", ['C16'], 'fire', f"Recipe.{_m}", 'if self.locked:', 'if False:', f"{_m} accepted on a baked recipe")
# create_container declares its container through uses() before it records anything: the call still raises RuntimeError
add('c16-lock-gate-through-uses', ['C16'], 'silent', 'Recipe.create_container', 'if self.locked:', 'if False:',
    'still gated through the call of uses() that precedes the first effect')
add('c16-all-used-gate', ['C16'], 'fire', 'Recipe.bake', 'if len(self.used) != len(self.results):', 'if False:',
    'unused declared objects tolerated')
add('c16-stage-name-gate', ['C16'], 'fire', 'Recipe.start_stage', 'if name in self.stages:', 'if False:', 'stage names reused')
add('c16-open-stage-gate', ['C16'], 'fire', 'Recipe.start_stage', "if self.current_stage != 'all':", 'if False:', 'nested stages')
add('c16-undeclared-destination', ['C16'], 'fire', 'Recipe.dilute', 'if destination.name not in self.results:', 'if False:',
    'undeclared container diluted')
add('c16-unlock-in-query', ['C16'], 'fire', 'Recipe.get_substance_used', '    if unit is None:',
    '    self.locked = False\n    if unit is None:', 'a query unlocks the recipe', count=1)
add('c16-query-appends', ['C16'], 'fire', 'Recipe.get_container_flows', '    steps = self.steps[self.stages[timeframe]]',
    '    self.steps.append(None)\n    steps = self.steps[self.stages[timeframe]]', 'a query changes the steps')
add('c16-lock-respelled', ['C16'], 'silent', 'Recipe.transfer', 'if self.locked:', 'if self.locked is True:', 'same gate')
add('c16-overwrite-name', ['C16'], 'fire', 'Recipe.uses', 'if arg.name not in self.results:', 'if True:',
    'an existing name is overwritten')

# ------------------------------------------------------------------------------------------------ C19
add('c19-volume-in-mL-as-L', ['C19'], 'fire', 'Container.fill_to',
    "required_volume = Unit.convert(solvent, f'{required_quantity} {quantity_unit}', 'L')",
    "required_volume = Unit.convert(solvent, f'{required_quantity} {quantity_unit}', 'mL')", 'millilitres rescaled as litres')
add('c19-fixed-unit-text', ['C19'], 'fire', 'Container.dilute', '{round(needed_volume, precision)} {unit} of',
    '{round(needed_volume, precision)} mL of', 'unit text no longer follows the rescaled value')
add('c19-unbounded-rescale', ['C19'], 'fire', 'Unit.convert_from_storage_to_standard_format',
    'while quantity < 1 and multiplier > 1e-06:', 'while quantity < 1:', 'rescaling without bound')
add('c19-other-amount-printed', ['C19'], 'fire', 'Container.dilute',
    "Unit.get_human_readable_unit(Unit.convert(solvent, needed_umoles, 'L'), 'L')",
    "Unit.get_human_readable_unit(Unit.convert(solvent, f'{current_umoles} umol', 'L'), 'L')", 'prints what was there, not what was added')
add('c19-enzyme-label-again', ['C19'], 'fire', 'Recipe.bake',
    "amount_added = Unit.convert_from(solvent, amount_added, 'U' if solvent.is_enzyme() else config.moles_storage_unit, 'L')",
    "amount_added = Unit.convert_from(solvent, amount_added, config.moles_storage_unit, 'L')", 'enzyme solvents print 0 L', count=1)

CATALOGUE = C

# F30 re-broken: the solvent container of a create_solution step is left out of the step record again
add('c15-solvent-container-unrecorded', ['C15', 'C09'], 'fire', 'Recipe.bake',
    'step.frm.append(self.results[solvent.name])', 'step.frm.append(None)',
    'the solvent container changes but is not recorded: flows 0, no amount remaining')

# F31 re-broken: the clamp after the rounded refusal gate of fill_to removed
add('c03-fill-to-clamp-dropped', ['C03'], 'fire', 'Container.fill_to',
    'required_quantity = max(required_quantity, 0)', 'pass',
    'a deficit within the internal precision reaches the add as a negative amount')

# F32 re-broken: per-well inflow of a plate as a bare before/after difference
add('c15-unclipped-plate-inflow', ['C15'], 'fire', 'Recipe.get_container_flows',
    'np.maximum(vfunc(step.to[1].wells) - vfunc(step.to[0].wells), 0)', 'vfunc(step.to[1].wells) - vfunc(step.to[0].wells)',
    'negative inflow in the source wells of a same-plate transfer')

add('c13-subslice-step-first', ['C13', 'C07'], 'fire', 'Slicer._process_sub_slice',
    'start = start + sub_slice.start * step', 'start = start + sub_slice.start * step * (sub_slice.step or 1)',
    'the start of a stepped sub-slice depends on the sub-slice step', module='pyplate/slicer.py')

# F33 / F34 re-broken
add('c07-set-indexes-with-list', ['C01', 'C07'], 'fire', 'Slicer.set',
    'elif isinstance(self.slices, list):', 'elif False:',
    'a list selection is used as one index again', module='pyplate/slicer.py')
add('c13-subslice-keeps-cache', ['C13'], 'fire', 'Slicer.__getitem__',
    "new_slicer._forget_cached()", 'pass', 'sub-slices keep the cached shape and size of their parent', module='pyplate/slicer.py', count=2)

# ------------------------------------------------------------------------------------------------ obligations shared after round 3
add('c02-remove-volume-in-moles-unit', ['C02', 'C10', 'C17'], 'fire', 'Container.remove',
    "substance_unit = 'U' if substance.is_enzyme() else config.moles_storage_unit", 'substance_unit = config.moles_storage_unit',
    'the stored volume after remove leaves out the enzymes: the next volume transfer divides by it')
add('c03-stale-solvent-operand', ['C03', 'C05', 'C08'], 'fire', 'Recipe.bake',
    'solvent = self.results[solvent.name]\n', 'pass\n',
    'create_solution in a recipe draws from the solvent container as declared: its gates see the old state')
add('c07-same-name-is-same-plate', ['C01', 'C07'], 'fire', 'PlateSlicer._transfer',
    'if to.plate != frm.plate:', 'if to.plate.name != frm.plate.name:', 'two plates with one name are treated as one plate')
add('c07-vectorize-without-cache', ['C01', 'C02', 'C07'], 'fire', 'Slicer.apply',
    'result = numpy.vectorize(func, cache=True)(self.array.__getitem__(elem))',
    'result = numpy.vectorize(func)(self.array.__getitem__(elem))', 'the per-well function runs twice on the first well',
    module=S)
add('c08-remove-skipped-when-dry', ['C08'], 'fire', 'Recipe.bake',
    "            if isinstance(what, Substance):\n                step.instructions = f\"Remove {what.name} from '{dest_name}'.\"",
    "            if isinstance(dest, Container) and (not dest.has_liquid()):\n                step.to.append(dest)\n                continue\n"
    "            if isinstance(what, Substance):\n                step.instructions = f\"Remove {what.name} from '{dest_name}'.\"",
    'a remove step is skipped on one path')
add('c17-reslice-by-item', ['C07', 'C08', 'C17'], 'fire', 'Recipe.bake',
    "                dest = deepcopy(dest)\n                dest.plate = self.results[dest_name]\n            else:\n                dest = self.results[dest_name]\n            if isinstance(what, Substance):",
    "                dest = self.results[dest_name][dest.item]\n            else:\n                dest = self.results[dest_name]\n            if isinstance(what, Substance):",
    'a remove step on a slice of a slice acts on the parent region')
add('c11-plate-fill-swallows-refusal', ['C03', 'C07', 'C11'], 'fire', 'PlateSlicer.fill_to',
    '    new_slice.apply(lambda elem: elem.fill_to(solvent, quantity))',
    '    def fill(elem):\n        try:\n            return elem.fill_to(solvent, quantity)\n        except ValueError:\n            return elem\n    new_slice.apply(fill)',
    'a well that cannot be filled is returned unchanged instead of refusing the call')
add('c14-parsed-value-against-molarity', ['C12', 'C14'], 'fire', 'Container.create_solution_from',
    '    a = numpy.array([[0.0, 0.0], [0.0, 0.0]])',
    "    if concentration > max(m_x, m_y):\n        raise ValueError('too concentrated')\n    a = numpy.array([[0.0, 0.0], [0.0, 0.0]])",
    'the number parsed from the string is compared with a molarity whatever the spelling')
add('c15-record-built-in-cached-set', ['C09', 'C15'], 'fire', 'Recipe.bake',
    '            step.substances_used = set.difference(step.to[0].get_substances(), step.to[1].get_substances())',
    '            step.substances_used = step.to[0].get_substances()\n            step.substances_used -= step.to[1].get_substances()',
    'the memoised set of a container is changed in place')
add('c18-capacity-compare-unrounded', ['C03', 'C18'], 'fire', 'Container._self_add',
    'new_volume = round(self.volume + volume_to_add, config.internal_precision)', 'new_volume = self.volume + volume_to_add',
    'an exact fit is decided by the representation error of the sum in the storage unit')
add('c18-deficit-rounded-at-user-precision', ['C18'], 'fire', 'Recipe.get_substance_used',
    'if delta < 0:', "if round(delta, config.precisions[unit] if unit in config.precisions else config.precisions['default']) < 0:",
    'the tolerated deficit depends on the storage unit')
add('c18-internal-precision-alias', ['C03', 'C10', 'C18'], 'silent', 'Container._self_add',
    '    new_volume = round(self.volume + volume_to_add, config.internal_precision)',
    '    digits = config.internal_precision\n    new_volume = round(self.volume + volume_to_add, digits)',
    'the internal precision through a local name')
add('c13-caller-step-dropped', ['C13'], 'fire', 'Slicer.parse_slice',
    'return slice(start, stop, step)', 'return slice(start, stop, None)', 'every well of the range is addressed instead of every n-th',
    module=S)
add('c13-explicit-edge-stop', ['C13', 'C07'], 'silent', 'Slicer.parse_slice',
    'return slice(start, stop, step)', 'return slice(start, len(labels) if stop is None else stop, step)',
    'an open stop written as the edge of the plate', module=S)

# ------------------------------------------------------------------------------------------------ identity discipline
add('c01-hash-with-molecule', ['C01', 'C10'], 'fire', 'Substance.__hash__',
    'hash((self.name, self._type, self.mol_weight, self.density, self.concentration, self.specific_activity))',
    'hash((self.name, self._type, self.mol_weight, self.density, self.concentration, self.specific_activity, id(self.molecule)))',
    'equal substances hash differently: the entry of an equal key is missed')
add('c10-container-eq-without-contents', ['C10'], 'fire', 'Container.__eq__',
    'self.name == other.name and self.contents == other.contents and (self.volume == other.volume)',
    'self.name == other.name and (self.volume == other.volume)',
    'containers that differ in contents are one cache key')
add('c10-container-hash-without-contents', ['C10'], 'silent', 'Container.__hash__',
    'hash((self.name, self.volume, self.max_volume, *tuple(map(tuple, self.contents.items()))))',
    'hash((self.name, self.volume, self.max_volume))',
    'a coarser hash is legal (equal objects still hash equally): same answers, more collisions')
add('c01-eq-conjunction-reordered', ['C01', 'C10'], 'silent', 'Substance.__eq__',
    'self.name == other.name and self._type == other._type', 'self._type == other._type and self.name == other.name',
    'order of the conjunction')
add('c02-eq-without-specific-activity', ['C01', 'C02', 'C10', 'C11', 'C17', 'C19'], 'fire', 'Substance.__eq__',
    ' and (self.specific_activity == other.specific_activity)', '',
    'F35 re-broken: two enzyme lots with different specific activity are one key (hash outside eq as well)')
add('c01-eq-compares-molecule', ['C01', 'C08', 'C09', 'C10', 'C17'], 'fire', 'Substance.__eq__',
    ' and (self.specific_activity == other.specific_activity)', ' and (self.specific_activity == other.specific_activity) and (self.molecule == other.molecule)',
    'an arbitrary object is compared: a deep copy of the substance no longer equals the original')
add('c07-wells-alias-one-container', ['C01', 'C07'], 'fire', 'Plate.__init__',
    "self.wells = numpy.array([[Container(f'well {row},{col}', max_volume=f'{max_volume_per_well} L') for col in self.column_names] for row in self.row_names])",
    "well = Container('well', max_volume=f'{max_volume_per_well} L')\n    self.wells = numpy.array([[well for col in self.column_names] for row in self.row_names])",
    'every well is the same object')

# ------------------------------------------------------------------------------------------------ single-pass iterables
add('c08-create-container-keeps-iterator', ['C08'], 'fire', 'Recipe.create_container',
    '        initial_contents = list(initial_contents)\n', '',
    'F36 re-broken: a generator of initial contents is empty when the recipe is baked')
add('c16-uses-validates-then-unpacks', ['C08', 'C16'], 'fire', 'Recipe.uses',
    'unpacked = list(arg)\n            if not all((isinstance(elem, (Container, Plate)) for elem in unpacked)):\n                raise TypeError(\'Invalid type in iterable.\')\n            self.uses(*unpacked)',
    'if not all((isinstance(elem, (Container, Plate)) for elem in arg)):\n                raise TypeError(\'Invalid type in iterable.\')\n            self.uses(*arg)',
    'the validation consumes a one-shot iterable: nothing is declared')
add('c09-destinations-checked-then-looped', ['C09'], 'fire', 'Recipe.get_substance_used',
    'elif isinstance(destinations, Iterable):', 'elif isinstance(destinations, Iterable) and all((isinstance(c, (Container, Plate)) for c in destinations)):',
    'the type check consumes a one-shot iterable of destinations')

# ------------------------------------------------------------------------------------------------ rules added after round 4
add('c06-default-argument-reads-config', ['C06', 'C02', 'C15', 'C18'], 'fire', 'Substance.solid',
    'def solid(name: str, mol_weight: float, molecule=None) -> Substance:',
    'def solid(name: str, mol_weight: float, molecule=None, density: float=config.default_solid_density) -> Substance:',
    'the configured default density is fixed at import')
add('c18-rstrip-as-suffix-strip', ['C18', 'C02', 'C06', 'C14'], 'fire', 'Unit.convert_to_storage',
    'Unit.convert_prefix_to_multiplier(config.moles_storage_unit[:-3])',
    "Unit.convert_prefix_to_multiplier(config.moles_storage_unit.rstrip('mol'))",
    "rstrip('mol') also strips the prefix 'm'", count=99)
add('c16-stage-start-before-validation', ['C15', 'C16', 'C09'], 'fire', 'Recipe.start_stage',
    "    if name in self.stages:\n        raise ValueError('Stage name already exists.')",
    "    self.current_stage_start = len(self.steps)\n    if name in self.stages:\n        raise ValueError('Stage name already exists.')",
    'a refused start_stage has already moved the start of the open stage')
add('c15-flows-share-one-array', ['C15'], 'fire', 'Recipe.get_container_flows',
    "flows = {'in': np.zeros(container.wells.shape), 'out': np.zeros(container.wells.shape)}",
    "flows = dict.fromkeys(flows, np.zeros(container.wells.shape))",
    'in and out are one array')
add('c15-flows-comprehension', ['C15'], 'silent', 'Recipe.get_container_flows',
    "flows = {'in': np.zeros(container.wells.shape), 'out': np.zeros(container.wells.shape)}",
    "flows = {key: np.zeros(container.wells.shape) for key in flows}",
    'one array per key, built by a comprehension')
add('c10-precision-zero-falls-through', ['C10', 'C19'], 'fire', 'PlateSlicer.get_volumes',
    "precision = config.precisions[unit] if unit in config.precisions else config.precisions['default']",
    "precision = config.precisions.get(unit) or config.precisions['default']",
    'a configured precision of 0 digits is taken for missing')
add('c03-well-capacity-in-display-unit', ['C03', 'C14', 'C18'], 'fire', 'Plate.__init__',
    "max_volume=f'{max_volume_per_well} L'", "max_volume=f'{self.max_volume_per_well} {config.volume_display_unit}'",
    'the stored capacity is labelled with the display unit')
add('c13-row-labels-least-significant-first', ['C13'], 'fire', 'Plate.__init__',
    "self.row_names.append(''.join(reversed(result)))", "self.row_names.append(''.join(result))",
    "row 28 is labelled 'BA'")
add('c13-row-labels-prepended', ['C13'], 'silent', 'Plate.__init__',
    "result.append(chr(ord('A') + row_num % 26))\n                row_num //= 26\n            self.row_names.append(''.join(reversed(result)))",
    "result.insert(0, chr(ord('A') + row_num % 26))\n                row_num //= 26\n            self.row_names.append(''.join(result))",
    'letters prepended instead of reversed')
add('c18-isclose-on-stored-volume', ['C18', 'C03'], 'fire', 'Container._transfer',
    'if to.volume > to.max_volume:', 'if to.volume > to.max_volume and (not numpy.isclose(to.volume, to.max_volume)):',
    'an absolute tolerance on a value in storage units')
add('c05-cached-row-scaled-in-place', ['C05', 'C14'], 'fire', 'Container.create_solution',
    'a[index] = c * bottom - numpy.roll(identity, i) * convert_one(substance, numerator)',
    'bottom *= c\n            a[index] = bottom - numpy.roll(identity, i) * convert_one(substance, numerator)',
    'the cached denominator row is scaled for every later solute')
add('c04-contents-defaultdict', ['C04'], 'fire', 'Container.__init__',
    'self.contents: Dict[Substance, float] = {}', 'self.contents: Dict[Substance, float] = defaultdict(float)',
    'reads of absent substances insert them')
add('c04-convert-from-writes-substance', ['C04'], 'fire', 'Unit.convert_from',
    "    if not isinstance(substance, Substance):", "    substance.density = substance.density\n    if not isinstance(substance, Substance):",
    'a conversion assigns to its Substance argument')
add('c01-apply-through-get-and-set', ['C01', 'C02', 'C07'], 'fire', 'Slicer.apply',
    "    if isinstance(self.slices, list):", "    return self.set(numpy.vectorize(func, cache=True)(self.get()))\n    if isinstance(self.slices, list):",
    'every entry is read before any is written; nothing is stored directly', module=S)
add('c02-accumulator-flattened', ['C01', 'C02'], 'fire', 'PlateSlicer._transfer',
    'to_array = to.get()', 'to_array = to.get().flatten()', 'the receiving well is updated in a copy')
add('c07-list-selection-sorted', ['C07', 'C13'], 'fire', 'Slicer.__init__',
    "    if isinstance(item, str):\n        if ':' in item:", "    if isinstance(item, list):\n        item = sorted(item)\n    if isinstance(item, str):\n        if ':' in item:",
    'the order of a list selection is lost', module=S)

# ------------------------------------------------------------------------------------------------ ordinary Python pitfalls
add('c06-floor-division-in-a-cell', ['C06', 'C02'], 'fire', 'Unit.convert_from',
    'result = quantity * 1000.0 * substance.density', 'result = quantity * 1000.0 // (1 / substance.density)',
    'a conversion floors its result')
add('c13-custom-labels-sorted', ['C13'], 'fire', 'Plate.__init__',
    'self.row_names = rows', 'self.row_names = sorted(rows)', 'custom labels are stored in another order than given')
add('c13-custom-labels-copied', ['C13', 'C04'], 'silent', 'Plate.__init__',
    'self.row_names = rows', 'self.row_names = list(rows)', 'an order-preserving copy of the given labels')

# ------------------------------------------------------------------------------------------------ rules added after round 5
add('c13-labels-compared-as-strings', ['C13', 'C07'], 'fire', 'Slicer.parse_slice',
    '        if start is not None:\n            if isinstance(start, str):',
    "        if type(start) is type(stop) and start is not None and start > stop:\n            raise ValueError('start lies after stop')\n        if start is not None:\n            if isinstance(start, str):",
    "'9':'10' is refused: labels are compared as strings", module=S)
add('c13-numpy-scalars-truncated', ['C13', 'C07'], 'fire', 'PlateSlicer.__init__',
    'super().__init__(plate.wells, plate.row_names, plate.column_names, item)',
    'super().__init__(plate.wells, plate.row_names, plate.column_names, int(item) if isinstance(item, numpy.number) else item)',
    'a fractional numpy index selects a well')
add('c13-getitem-refuses-one', ['C13', 'C07'], 'fire', 'Plate.__getitem__',
    'return PlateSlicer(self, item)', "if item in (True, False):\n        raise TypeError('bool index')\n    return PlateSlicer(self, item)",
    'plate[1] is refused: 1 == True')
add('c13-getitem-keywords', ['C13', 'C07', 'C17'], 'silent', 'Plate.__getitem__',
    'return PlateSlicer(self, item)', 'return PlateSlicer(plate=self, item=item)', 'keyword arguments')
add('c03-deficit-rounded-for-display', ['C03', 'C11'], 'fire', 'Container.fill_to',
    'if round(required_quantity, config.internal_precision) < 0:',
    "if round(required_quantity, config.precisions[quantity_unit] if quantity_unit in config.precisions else config.precisions['default']) < 0:",
    'a target half a millilitre below the present content is accepted')
add('c03-solvent-is-solute', ['C03', 'C12'], 'fire', 'Container.create_solution_from',
    'if solvent == solute:', 'if solvent is solute:', 'an equal substance read back from a container is not recognised')
add('c08-stage-name-by-identity', ['C08', 'C16'], 'fire', 'Recipe.end_stage',
    'if self.current_stage != name:', 'if self.current_stage is not name:', 'equal names built at run time are different objects')
add('c16-declared-check-on-cut-name', ['C16'], 'fire', 'Recipe.remove',
    'if destination.plate.name not in self.results:', "if destination.plate.name.split('[')[0] not in self.results:",
    'the name looked up is not the name of the operand')
add('c02-repr-sorts-selection', ['C02', 'C04', 'C07', 'C13'], 'fire', 'PlateSlicer.__repr__',
    "    if isinstance(self.slices, list):\n        result =", "    if isinstance(self.slices, list):\n        wells = self.slices\n        wells.sort(key=str)\n        result =",
    'formatting the name reorders the selection')
add('c02-repr-sorted-copy-for-display', ['C02', 'C07', 'C13'], 'silent', 'PlateSlicer.__repr__',
    "for item in self.slices])}]", "for item in sorted(self.slices, key=str)])}]".replace('sorted(self.slices, key=str)', 'list(self.slices)'),
    'an order-preserving copy used for display only')
add('c08-solutes-sorted-at-declaration', ['C05', 'C08'], 'fire', 'Recipe.create_solution',
    "    solute_names = ', '.join(", "    if isinstance(solute, list):\n        solute.sort(key=lambda s_: s_.name)\n    solute_names = ', '.join(",
    'per-solute values are paired with other solutes')
add('c10-empty-collection-means-all', ['C10'], 'fire', 'PlateSlicer.get_volumes',
    'if substance is None:', 'if not substance:', 'an empty collection of substances returns total volumes')
add('c14-declaration-checks-digits', ['C14'], 'fire', 'Recipe.transfer',
    '    if not isinstance(quantity, str):\n        raise TypeError("Volume must be a str. (\'5 mL\')")',
    '    if not isinstance(quantity, str):\n        raise TypeError("Volume must be a str. (\'5 mL\')")\n    if not quantity.split(\' \')[0].replace(\'.\', \'\', 1).isdigit():\n        raise ValueError(\'bad amount\')',
    "'5e-1 mL' is refused by Recipe.transfer only")
add('c01-get-or-zero', ['C01', 'C02', 'C10'], 'silent', 'Container._transfer',
    'to.contents.get(substance, 0) + to_transfer', '(to.contents.get(substance) or 0) + to_transfer',
    'd.get(k) or 0 is d.get(k, 0) on a mapping of numbers')
add('c07-shape-compared-by-identity', ['C07', 'C03'], 'fire', 'PlateSlicer._transfer',
    'if frm.shape != (1, 1):', 'if frm.shape is not (1, 1):', 'a tuple display is never the same object')
add('c16-bake-closes-on-truthiness', ['C16', 'C08'], 'fire', 'Recipe.bake',
    "if self.current_stage != 'all':", 'if self.current_stage:', "the marker 'all' counts as an open stage")

# ------------------------------------------------------------------------------------------------ rules added after round 6
add('c16-uses-registers-in-bulk', ['C16'], 'fire', 'Recipe.uses',
    'self.uses(*unpacked)', "for elem in unpacked:\n                if elem.name in self.results:\n                    raise ValueError('in use')\n            self.results.update(((elem.name, deepcopy(elem)) for elem in unpacked))",
    'two objects with one name inside a batch are both accepted')
add('c13-row-label-carry-undecremented', ['C13'], 'fire', 'Plate.__init__',
    "row_num -= 1\n                result.append(chr(ord('A') + row_num % 26))", "result.append(chr(ord('A') + (row_num - 1) % 26))",
    "row 26 is labelled 'AZ'")
add('c14-enzyme-mass-per-unit-not-inverted', ['C06', 'C14'], 'fire', 'Substance.enzyme',
    'substance.specific_activity = 1 / value', 'substance.specific_activity = value', "'0.1 mg/U' is read as 0.1 U/mg")
add('c12-new-solution-with-source-capacity', ['C12'], 'fire', 'Container.create_solution_from',
    'new_solution = Container(name)', "new_solution = Container(name, f'{source.max_volume} {config.volume_storage_unit}')",
    'a small source vial limits the new solution', count=99)
add('c10-zero-volume-means-empty', ['C10'], 'fire', 'Container.get_concentration',
    'if numerator == 0:', 'if numerator == 0 or self.volume == 0:', 'zero-volume solids have a mass fraction')
add('c08-dilute-checks-declared-contents', ['C08'], 'fire', 'Recipe.dilute',
    "    if not isinstance(solute, Substance):", "    if destination.contents and solute not in destination.contents:\n        raise ValueError('does not contain')\n    if not isinstance(solute, Substance):",
    'the declaration looks at the state of the declared object')
add('c15-solvent-container-not-in-objects-used', ['C09', 'C15'], 'fire', 'Recipe.bake',
    'step.objects_used.add(solvent.name)', 'self.used.add(solvent.name)', 'the step does not list the solvent container')
add('c07-subslice-extent-unscaled', ['C07', 'C13'], 'fire', 'Slicer._process_sub_slice',
    'stop = min(start + length * step, stop)', 'stop = min(start + length, stop)', 'a stepped parent is cut short', module=S)
add('c04-single-value-list-repeated-in-place', ['C04'], 'fire', 'Container.create_solution',
    '        if len(concentration) != n:', '        if len(concentration) == 1:\n            concentration *= n\n        if len(concentration) != n:',
    "the caller's list grows")
add('c19-solute-amounts-read-after-mixing', ['C19'], 'fire', 'Container.create_solution',
    "        result = Container(name, initial_contents=initial_contents[:-1])\n        contents = []",
    "        result = Container(name, initial_contents=initial_contents[:-1])\n        solvent0, result = Container.transfer(original_solvent, result, initial_contents[-1][1])\n        contents = []",
    'the stated amounts include what the solvent container held')

# ------------------------------------------------------------------------------------------------ rules added after round 7
add('c15-substances-kept-in-an-attribute', ['C15', 'C10', 'C04'], 'fire', 'Container.get_substances',
    'return set(self.contents.keys())',
    "if getattr(self, '_substances', None) is None:\n        self._substances = set(self.contents.keys())\n    return self._substances",
    'the set travels with deepcopy: a copy whose contents changed answers with the old substances')
add('c06-class-attribute-only-read', ['C06', 'C14', 'C18'], 'silent', 'Unit.convert_prefix_to_multiplier',
    "if not isinstance(prefix, str):", "_ = Unit.convert\n    if not isinstance(prefix, str):",
    'silent twin of the next: reading a class attribute is no state')
add('c06-results-kept-on-the-class', ['C06', 'C14', 'C18'], 'fire', 'Unit.convert_prefix_to_multiplier',
    "if not isinstance(prefix, str):", "Unit._seen = getattr(Unit, '_seen', {})\n    Unit._seen[prefix] = True\n    if not isinstance(prefix, str):",
    'a method writes into a class-level container')
add('c14-numerator-factor-keyed-by-unit', ['C14', 'C05', 'C03'], 'fire', 'Container.create_solution',
    'a[index] = c * bottom - numpy.roll(identity, i) * convert_one(substance, numerator)',
    'if numerator not in bottom_arrays:\n                bottom_arrays[numerator] = convert_one(substance, numerator)\n            a[index] = c * bottom - numpy.roll(identity, i) * bottom_arrays[numerator]',
    'the factor of the first solute is used for every solute with the same numerator unit')
add('c09-empty-wells-skipped-by-volume', ['C09', 'C15', 'C17'], 'fire', 'Recipe.bake',
    'for substance in set.difference(before.get_substances(), after.get_substances()):\n                        step.substances_used.add(substance)',
    'if not before.volume:\n                        continue\n                    for substance in set.difference(before.get_substances(), after.get_substances()):\n                        step.substances_used.add(substance)',
    'a dry well of zero-volume solids is skipped when recording what a remove step discarded')
add('c07-ufunc-writes-into-get', ['C07', 'C02', 'C01'], 'fire', 'PlateSlicer._transfer',
    'frm_result, to_result = func(frm.get(), to.get())\n        frm.set(frm_result)\n        to.set(to_result)',
    'frm_wells, to_wells = (frm.get(), to.get())\n        func(frm_wells, to_wells, out=(frm_wells, to_wells))',
    'for lists of wells get() is a new array: the transfer is lost')
add('c18-stock-checked-on-unrounded-product', ['C18', 'C03'], 'fire', 'Container._transfer',
    'if volume_to_transfer > source_container.volume:', "if Unit.convert_to_storage(quantity_to_transfer, 'L') * 3 > source_container.volume:",
    '3 x 0.1 mL against 0.3 mL is refused under mL and accepted under uL')
add('c11-volume-recomputed-only-with-liquid', ['C11', 'C10', 'C17'], 'fire', 'Container.remove',
    "for substance, value in new_container.contents.items():\n        substance_unit = 'U' if substance.is_enzyme() else config.moles_storage_unit\n        new_container.volume += Unit.convert_from(substance, value, substance_unit, config.volume_storage_unit)",
    "if new_container.has_liquid():\n        for substance, value in new_container.contents.items():\n            substance_unit = 'U' if substance.is_enzyme() else config.moles_storage_unit\n            new_container.volume += Unit.convert_from(substance, value, substance_unit, config.volume_storage_unit)",
    'a container of solids keeps volume 0')

# ------------------------------------------------------------------------------------------------ rules added after round 8
add('c19-entries-stated-inside-the-adding-loop', ['C19'], 'fire', 'Container.__init__',
    'self._self_add(substance, quantity)',
    'self._self_add(substance, quantity)\n            self.instructions += f"{self.contents[substance]} of {substance.name}, "',
    'the text is composed from the running total of each entry')
add('c07-shape-from-bounds-rounds-down', ['C07', 'C13'], 'fire', 'Slicer._process_sub_slice',
    'if sub_slice.step is not None:\n        step *= sub_slice.step',
    'if sub_slice.step is not None:\n        step *= sub_slice.step\n        length = (stop - start) // step',
    'an extent divided by the step, rounded down', module=S)
add('c07-shape-from-bounds-rounds-up', ['C07', 'C13'], 'silent', 'Slicer._process_sub_slice',
    'if sub_slice.step is not None:\n        step *= sub_slice.step',
    'if sub_slice.step is not None:\n        step *= sub_slice.step\n        _n = -(-(stop - start) // step)',
    'silent twin: ceiling division', module=S)
add('c01-plates-compare-by-value', ['C01', 'C07'], 'fire', 'Plate.get_volume',
    'def get_volume(self', 'def __eq__(self, other):\n    return isinstance(other, Plate) and self.name == other.name\n\ndef get_volume(self',
    'the same-plate test of the plate transfer becomes a value comparison')
add('c08-quantity-rerendered-at-declaration', ['C08'], 'fire', 'Recipe.transfer',
    "RecipeStep(self, 'transfer', source, destination, quantity)",
    "RecipeStep(self, 'transfer', source, destination, '%g %s' % Unit.parse_quantity(quantity))",
    'the step records a re-rendered quantity (six digits)')
add('c01-overlap-decided-on-get', ['C01', 'C02'], 'fire', 'PlateSlicer._transfer',
    'if (addressed[0] & addressed[1]).any():', 'if numpy.shares_memory(frm.get(), to.get()):',
    'get() is a new array for lists of wells: overlapping lists are accepted')
add('c09-plate-scan-skipped-on-display-volume', ['C09', 'C17', 'C15'], 'fire', 'Recipe.bake',
    'step.substances_used = set()', 'step.substances_used = set() if step.to[0].get_volume() != step.to[1].get_volume() else step.substances_used',
    'less than half a display unit per well leaves no trace in the record')
add('c05-contents-dropped-on-zero-volume', ['C05', 'C10'], 'fire', 'Container._transfer',
    'to.volume = 0\n    for substance, amount in to.contents.items():',
    'if to.volume == 0:\n        to.contents = {}\n    to.volume = 0\n    for substance, amount in to.contents.items():',
    'solids configured to take no volume are discarded')
add('c10-plate-volume-from-stored-fields', ['C10', 'C18'], 'fire', 'Plate.get_volume',
    'return self.get_volumes(unit=unit).sum()',
    "if unit == 'uL':\n        return sum(well.volume for well in self.wells.flatten())\n    return self.get_volumes(unit=unit).sum()",
    'the stored volume is in the storage unit, whatever that is configured to be')
add('c01-emptied-source-handed-over-wholesale', ['C01', 'C12', 'C02'], 'fire', 'Container._transfer',
    'source_container, to = (deepcopy(source_container), deepcopy(self))',
    'source_container, to = (deepcopy(source_container), deepcopy(self))\n    if ratio == 1:\n        to.contents.update(source_container.contents)',
    'what the destination held of the same substances is overwritten')
add('c12-solvent-container-taken-for-pure', ['C12'], 'fire', 'Container.create_solution_from',
    "m_y = Unit.convert_from_storage(solvent.contents.get(solute, 0), 'mol') / (volume / 1000)", 'm_y = 0',
    'the solute a solvent container already holds is ignored')
add('c01-single-well-list-through-get', ['C01', 'C07'], 'fire', 'PlateSlicer._transfer',
    "if frm.shape != (1, 1):\n            raise RuntimeError('Shape of source should have been (1, 1)')", 'pass', 'a one-element list of wells is a copy: the write is lost')
add('c17-repeated-remove-dropped', ['C17', 'C08'], 'fire', 'Recipe.remove',
    "self.steps.append(RecipeStep(self, 'remove', None, destination, what))",
    "if self.steps and self.steps[-1].operator == 'remove':\n        return\n    self.steps.append(RecipeStep(self, 'remove', None, destination, what))",
    'a declaration judged to be a repetition is not recorded')
add('c14-prefix-case-folded', ['C14'], 'fire', 'Unit.convert_prefix_to_multiplier',
    'if prefix in prefixes:', 'if prefix.lower() in prefixes:\n        return prefixes[prefix.lower()]\n    if prefix in prefixes:',
    "'U', 'K', 'N' become prefixes")
add('c02-dispatcher-skips-small-requests', ['C02'], 'fire', 'Plate.transfer',
    'return PlateSlicer._transfer(source, destination, quantity)',
    'if Unit.parse_quantity(quantity)[0] < 1e-09:\n        return (source, destination)\n    return PlateSlicer._transfer(source, destination, quantity)',
    'the dispatcher answers by itself')
add('c15-steps-filtered-at-bake', ['C15', 'C09', 'C08'], 'fire', 'Recipe.bake',
    'self.locked = True', 'self.steps = [s for s in self.steps if s.operator]\n    self.locked = True',
    'the stages are index ranges into the list that is being replaced')
add('c15-answer-remembered-without-the-mode', ['C15', 'C09'], 'fire', 'Recipe.get_amount_remaining',
    "steps = self.steps[self.stages[timeframe]]",
    "steps = self.used_memo.get(timeframe)\n    if steps is None:\n        steps = self.steps[self.stages[timeframe]]\n        if mode == 'after':\n            steps = list(reversed(steps))\n        self.used_memo[timeframe] = steps",
    'the remembered list depends on the mode, the key does not name it')

# ------------------------------------------------------------------------------------------------ rules added after round 9
add('c06-noise-clamp-in-base-units', ['C06'], 'fire', 'Unit.convert',
    'return Unit.convert_from(substance, value, quantity_unit, unit)',
    'if abs(value) < 10 ** (-config.internal_precision):\n        value = 0.0\n    return Unit.convert_from(substance, value, quantity_unit, unit)',
    'the internal precision counts digits of storage units, the parsed value is in base units')
add('c03-amount-sign-gate-dropped', ['C03'], 'fire', 'Container._self_add',
    'round(volume_to_add, config.internal_precision) < 0 or round(amount_to_add, config.internal_precision) < 0',
    'round(volume_to_add, config.internal_precision) < 0',
    'a negative amount of a substance that takes no volume is stored')
add('c10-dilute-on-a-shallow-copy', ['C10', 'C04'], 'fire', 'Container.dilute',
    'result = destination._add(solvent, needed_umoles)', 'result = copy(destination)\n    result._self_add(solvent, needed_umoles)',
    'the copy shares the contents dictionary with the original')
add('c02-total-kept-as-cached-property', ['C02', 'C10'], 'fire', 'Container.has_liquid',
    '@cache', '@cached_property', 'kept in the instance dictionary and copied with the object')
add('c11-capacity-error-rescued', ['C11', 'C03', 'C19'], 'fire', 'Container.fill_to',
    "result = self._add(solvent, f'{required_quantity} {quantity_unit}')",
    "try:\n        result = self._add(solvent, f'{required_quantity} {quantity_unit}')\n    except ValueError:\n        result = self._add(solvent, '0 L')",
    'the refusal of the add is converted into a result')
add('c15-answers-kept-through-vars', ['C15', 'C09'], 'fire', 'Recipe.get_amount_remaining',
    "steps = self.steps[self.stages[timeframe]]",
    "answers = vars(self).setdefault('_answers', {})\n    steps = self.steps[self.stages[timeframe]]",
    'vars(self) is the instance dictionary: a cache addressed by name')

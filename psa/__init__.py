"""psa - PyPlate static analysis: repository-specific checkers for properties C01..C19.

Standard library only. Nothing in this package imports or executes PyPlate; every check parses the
current working tree of the repository with `ast` and decides rules on the resulting program model.
"""

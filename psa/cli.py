"""Command line: ./check <id>|all [--tier quick|thorough] [--replay <path>] [--repo <dir>] [--json]

Exit codes: 0 = every obligation discharged or listed as a known finding; 1 = at least one unlisted violation
(each printed as `VIOLATION property=<id> replay=<path>`); 2 = ANALYSIS-ERROR (checker fault, vanished anchor or
uninterpretable construct) - never confused with a violation."""
from __future__ import annotations

import importlib
import json
import os
import sys
import time
import traceback

PROPS = [f"C{i:02d}" for i in range(1, 20)]


def run_property(prop, tier, seed, quiet=False, only_key=None):
    from .model import Model, AnalysisError
    from . import report
    t0 = time.time()
    try:
        model = Model()
        ctx = report.Ctx(model, prop, tier)
        mod = importlib.import_module(f"psa.rules.{prop.lower()}")
        info = mod.run(ctx) or {}
        _closed_world(model, prop)
        if tier == 'thorough' and hasattr(mod, 'thorough'):
            info.update(mod.thorough(ctx) or {})
        selftest = None
        if tier == 'thorough':
            from . import selftest as st
            selftest = st.run_for(prop, seed)
    except AnalysisError as exc:
        print(f"ANALYSIS-ERROR property={prop} {exc}")
        return _partial(prop, locals().get('ctx'))
    except Exception:
        print(f"ANALYSIS-ERROR property={prop} internal error")
        traceback.print_exc(file=sys.stdout)
        return _partial(prop, locals().get('ctx'))
    if not ctx.obs:
        print(f"ANALYSIS-ERROR property={prop} no obligations were enumerated (a rule matching nothing cannot pass)")
        return 2
    known = report.load_known()
    report.clear_violations(prop)
    nviol = 0
    nknown = 0
    printed_known = set()
    for o in ctx.obs:
        if o.ok:
            continue
        k = report.match_known(o, prop, known)
        if k is not None:
            o.known = k
            nknown += 1
            if k['id'] not in printed_known:
                printed_known.add(k['id'])
                print(f"KNOWN-FINDING: property={prop} {k['id']} {o.func}: {k['what_fails']}")
            continue
        if only_key is not None and (o.func, o.key) != only_key:
            continue
        nviol += 1
        path = report.write_violation(prop, nviol, o)
        print(f"VIOLATION property={prop} replay={path}")
        print(f"  {o.file}:{o.line}  {o.func}  {o.rule}  {o.instance}  [{o.fact}]  {o.why}")
    wall = time.time() - t0
    extra = dict(info.get('coverage', {}))
    if selftest is not None:
        extra['selftest'] = selftest
        if selftest.get('failed'):
            print(f"ANALYSIS-ERROR property={prop} self-validation failed: {selftest['failed'][:5]}")
            report.write_evidence(prop, tier, seed, ctx, info.get('explanation', ''), wall, nviol, nknown, extra,
                                  info.get('exhaustive', False), info.get('trusted_base'))
            return 2
    if not os.environ.get('PSA_NO_EVIDENCE'):
        report.write_evidence(prop, tier, seed, ctx, info.get('explanation', ''), wall, nviol, nknown, extra,
                              info.get('exhaustive', False), info.get('trusted_base'))
    if os.environ.get('PSA_LIST'):
        for o in ctx.obs:
            print(f"  [{'ok' if o.ok else 'KNOWN' if o.known else 'VIOL'}] {o.rule} {o.func}:{o.line} {o.instance} :: {o.fact[:160]}")
    if not quiet:
        rules = {}
        for o in ctx.obs:
            r = rules.setdefault(o.rule, [0, 0])
            r[0] += 1
            r[1] += o.ok
        summary = ' '.join(f"{r}:{v[1]}/{v[0]}" for r, v in sorted(rules.items()))
        print(f"{prop} {tier}: obligations={len(ctx.obs)} discharged={sum(o.ok for o in ctx.obs)} "
              f"known={nknown} violations={nviol} functions={len(ctx.functions_analysed)} wall={wall:.2f}s")
        print(f"  rules: {summary}")
        if selftest is not None:
            print(f"  selftest: fired {selftest['fired']} silent {selftest['silent']} skipped {selftest['skipped']}")
    return 1 if nviol else 0


COPY_PROTOCOL = ('__deepcopy__', '__copy__', '__reduce__', '__reduce_ex__', '__getstate__', '__setstate__', '__getnewargs__',
                 '__getnewargs_ex__')


def _closed_world(model, prop):
    """The summaries of copy / deepcopy in the trusted base hold for classes that leave the copy protocol alone.  A class
    that defines one of its hooks makes "a deep copy" mean what that method does: the verdicts of this run would rest on a
    summary that no longer describes the code, so the run ends without a verdict (violations found up to here are still
    reported).  C04 is exempt: its ownership analysis reads the hook's body like any other method."""
    if prop == 'C04':
        return
    from .model import AnalysisError
    import ast as _ast
    for ci in model.classes.values():
        for m in ci.node.body:
            names = [m.name] if isinstance(m, (_ast.FunctionDef, _ast.AsyncFunctionDef)) else \
                [t.id for t in getattr(m, 'targets', []) if isinstance(t, _ast.Name)]
            for nm in names:
                if nm in COPY_PROTOCOL:
                    raise AnalysisError(f"closed-world assumption void: {ci.name}.{nm} (line {m.lineno}) redefines the copy protocol; "
                                        f"the deepcopy / copy summaries of the trusted base do not describe this class")


def _partial(prop, ctx):
    """The analysis gave up part-way.  Obligations that had already been decided as violated stay violations (they
    were derived before the point of failure and do not depend on what could not be interpreted): they are reported
    and the exit code is 1.  With none, the run is an analysis error (exit 2).  No evidence is written."""
    from . import report
    if ctx is None:
        return 2
    known = report.load_known()
    nviol = 0
    for o in ctx.obs:
        if o.ok or report.match_known(o, prop, known) is not None:
            continue
        if nviol == 0:
            report.clear_violations(prop)
        nviol += 1
        path = report.write_violation(prop, nviol, o)
        print(f"VIOLATION property={prop} replay={path}")
        print(f"  {o.file}:{o.line}  {o.func}  {o.rule}  {o.instance}  [{o.fact}]  {o.why}")
    if nviol:
        print(f"{prop}: analysis incomplete, {nviol} violation(s) established before it stopped")
        return 1
    return 2


def replay(path):
    with open(path, encoding='utf-8') as fh:
        rec = json.load(fh)
    prop = rec['property']
    key = (rec['key']['function'], rec['key']['construct'])
    print(f"replaying {prop} {rec['rule']} {key[0]}: {key[1]}")
    rc = run_property(prop, 'quick', 0, quiet=True, only_key=key)
    if rc == 0:
        print("obligation holds on the current tree")
    return rc


def main(argv=None):
    argv = list(sys.argv[1:] if argv is None else argv)
    tier = os.environ.get('VERIF_TIER', 'quick')
    seed = int(os.environ.get('VERIF_SEED', '0') or 0)
    ids = []
    i = 0
    while i < len(argv):
        a = argv[i]
        if a == '--tier':
            tier = argv[i + 1]
            i += 2
        elif a == '--replay':
            return replay(argv[i + 1])
        elif a == '--repo':
            os.environ['PSA_REPO'] = argv[i + 1]
            i += 2
        elif a == '--selftest':
            from . import selftest as st
            return st.main(argv[i + 1:])
        else:
            ids.append(a)
            i += 1
    if tier not in ('quick', 'thorough'):
        tier = 'quick'
    if not ids:
        print(__doc__)
        return 2
    if ids == ['all']:
        ids = PROPS
    rc = 0
    for p in ids:
        p = p.upper()
        if p not in PROPS:
            print(f"unknown property {p}")
            return 2
        r = run_property(p, tier, seed)
        rc = max(rc, r) if 2 not in (rc, r) else 2
    return rc


if __name__ == '__main__':
    try:
        sys.exit(main())
    except SystemExit:
        raise
    except Exception:
        print("ANALYSIS-ERROR internal error")
        traceback.print_exc(file=sys.stdout)
        sys.exit(2)

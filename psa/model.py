"""Engine M: program model of the PyPlate sources (modules, classes, functions, closures, signatures,
parent links, light call resolution).  Built from the files on disk or from in-memory source text
(the latter is used by the self-validation variants, which never touch /repo)."""
from __future__ import annotations

import ast
import os

MODULES = ['pyplate/pyplate.py', 'pyplate/slicer.py', 'pyplate/__init__.py', 'pyplate/experiment_design.py']


class AnalysisError(Exception):
    """The analysis cannot interpret something it needs (exit 2, never a VIOLATION)."""


class AnchorMissing(AnalysisError):
    """A named anchor (public API / test-pinned private name) no longer exists."""


def repo_root() -> str:
    return os.environ.get('PSA_REPO', '/repo')


class ModInfo:
    def __init__(self, rel, src):
        self.rel = rel
        self.src = src
        self.tree = ast.parse(src, filename=rel)
        self.lines = src.splitlines()


class ClassInfo:
    def __init__(self, name, node, mod):
        self.name, self.node, self.mod = name, node, mod
        self.bases = [ast.unparse(b) for b in node.bases]
        self.methods: dict[str, FuncInfo] = {}
        self.setters: dict[str, FuncInfo] = {}
        self.class_attrs: set[str] = set()


class FuncInfo:
    def __init__(self, qualname, node, cls, mod, parent):
        self.qualname, self.node, self.cls, self.mod, self.parent = qualname, node, cls, mod, parent
        self.name = node.name if not isinstance(node, ast.Lambda) else '<lambda>'
        self.nested: list[FuncInfo] = []
        decos = set()
        if not isinstance(node, ast.Lambda):
            for d in node.decorator_list:
                decos.add(ast.unparse(d))
        self.decorators = decos
        self.is_static = 'staticmethod' in decos
        self.is_classmethod = 'classmethod' in decos
        self.is_property = 'property' in decos or 'cached_property' in decos
        self.is_setter = any(d.endswith('.setter') for d in decos)
        self.is_cached = 'cache' in decos or 'cached_property' in decos or any(d.startswith('lru_cache') for d in decos)
        self.is_method = cls is not None and parent is None

    # ---- signature helpers
    @property
    def args(self):
        return self.node.args

    def param_names(self, drop_self=True):
        a = self.node.args
        names = [x.arg for x in a.posonlyargs + a.args]
        if drop_self and self.is_method and not self.is_static and names:
            names = names[1:]
        return names

    def all_param_names(self):
        a = self.node.args
        names = [x.arg for x in a.posonlyargs + a.args + a.kwonlyargs]
        if a.vararg:
            names.append(a.vararg.arg)
        if a.kwarg:
            names.append(a.kwarg.arg)
        return names

    def annotation(self, pname):
        a = self.node.args
        for x in a.posonlyargs + a.args + a.kwonlyargs:
            if x.arg == pname and x.annotation is not None:
                return ast.unparse(x.annotation)
        return None

    def accepts(self, npos, kwnames, via_class=False):
        """Would a call with `npos` positional args and keyword names `kwnames` bind?  `via_class`: the
        method is looked up on the class object (an instance method then needs its receiver explicitly)."""
        a = self.node.args
        pos = [x.arg for x in a.posonlyargs + a.args]
        if self.is_method and not self.is_static and not via_class and pos:
            pos = pos[1:]
        if self.is_method and self.is_classmethod and via_class and pos:
            pos = pos[1:]
        ndef = len(a.defaults)
        required = pos[:len(pos) - ndef] if ndef else list(pos)
        kwonly = [x.arg for x in a.kwonlyargs]
        kwonly_required = [x.arg for x, d in zip(a.kwonlyargs, a.kw_defaults) if d is None]
        if npos > len(pos) and a.vararg is None:
            return False
        bound = set(pos[:npos])
        for k in kwnames:
            if k in bound:
                return False
            if k not in pos and k not in kwonly and a.kwarg is None:
                return False
            bound.add(k)
        for r in required:
            if r not in bound:
                return False
        for r in kwonly_required:
            if r not in bound:
                return False
        return True

    def loc(self):
        return f"{self.mod.rel}:{self.node.lineno}"


_serial = [0]


class Model:
    def __init__(self, sources: dict[str, str] | None = None, root: str | None = None, inline: bool | None = None):
        self.root = root or repo_root()
        self._sources = sources
        _serial[0] += 1
        self.serial = (os.getpid(), _serial[0])      # cache key (id() values are reused after garbage collection)
        if inline is None:
            inline = os.environ.get('PSA_NO_INLINE') != '1'
        self.inline_stats = {}
        self.renamed_anchors = {}
        self.modules: dict[str, ModInfo] = {}
        self.classes: dict[str, ClassInfo] = {}
        self.funcs: dict[str, FuncInfo] = {}
        self.func_of_node: dict[int, FuncInfo] = {}
        for rel in MODULES:
            if sources is not None and rel in sources:
                src = sources[rel]
            else:
                path = os.path.join(self.root, rel)
                if not os.path.isfile(path):
                    raise AnchorMissing(f"module {rel} not found under {self.root}")
                with open(path, encoding='utf-8') as fh:
                    src = fh.read()
            try:
                mod = ModInfo(rel, src)
            except SyntaxError as exc:
                raise AnalysisError(f"{rel} does not parse: {exc}") from exc
            self.modules[rel] = mod
        if inline:
            from .inline import canonical_names
            self.renamed_anchors = canonical_names([m.tree for m in self.modules.values()])
        for rel, mod in self.modules.items():
            if inline:
                from .inline import expand_module
                others = [m.src for r, m in self.modules.items() if r != rel]
                try:
                    self.inline_stats[rel] = expand_module(mod.tree, others)
                except RecursionError as exc:
                    raise AnalysisError(f"{rel}: helper expansion did not terminate") from exc
            self._index_module(mod)
        yaml_path = os.path.join(self.root, 'pyplate/pyplate.yaml')
        self.yaml_text = ''
        if sources is not None and 'pyplate/pyplate.yaml' in sources:
            self.yaml_text = sources['pyplate/pyplate.yaml']
        elif os.path.isfile(yaml_path):
            with open(yaml_path, encoding='utf-8') as fh:
                self.yaml_text = fh.read()

    def plain(self):
        """The same sources without helper expansion (for rules that look at a private helper itself)."""
        if getattr(self, '_plain', None) is None:
            self._plain = Model(sources=self._sources, root=self.root, inline=False)
        return self._plain

    # ------------------------------------------------------------------ indexing
    def _index_module(self, mod: ModInfo):
        for n in ast.walk(mod.tree):
            for c in ast.iter_child_nodes(n):
                if not isinstance(c, (ast.expr_context, ast.operator, ast.unaryop, ast.boolop, ast.cmpop)):
                    c.parent = n        # (context / operator nodes are singletons shared by every parsed tree)
        mod.tree.parent = None
        for n in mod.tree.body:
            if isinstance(n, ast.ClassDef):
                ci = ClassInfo(n.name, n, mod)
                self.classes[n.name] = ci
                for m in n.body:
                    if isinstance(m, (ast.FunctionDef, ast.AsyncFunctionDef)):
                        fi = FuncInfo(f"{n.name}.{m.name}", m, ci, mod, None)
                        if fi.is_setter:
                            fi.qualname += '.setter'
                            ci.setters[m.name] = fi
                        else:
                            ci.methods[m.name] = fi
                        self._register(fi)
                    elif isinstance(m, ast.Assign):
                        for t in m.targets:
                            if isinstance(t, ast.Name):
                                ci.class_attrs.add(t.id)
                    elif isinstance(m, ast.AnnAssign) and isinstance(m.target, ast.Name):
                        ci.class_attrs.add(m.target.id)
            elif isinstance(n, (ast.FunctionDef, ast.AsyncFunctionDef)):
                fi = FuncInfo(n.name, n, None, mod, None)
                self._register(fi)

    def _register(self, fi: FuncInfo):
        q = fi.qualname
        k = 2
        while q in self.funcs:
            q = f"{fi.qualname}#{k}"
            k += 1
        fi.qualname = q
        self.funcs[q] = fi
        self.func_of_node[id(fi.node)] = fi
        self._index_nested(fi)

    def _index_nested(self, fi: FuncInfo):
        body = fi.node.body if not isinstance(fi.node, ast.Lambda) else [fi.node.body]
        stack = list(body)
        while stack:
            n = stack.pop(0)
            if isinstance(n, (ast.FunctionDef, ast.AsyncFunctionDef)):
                sub = FuncInfo(f"{fi.qualname}.{n.name}", n, fi.cls, fi.mod, fi)
                fi.nested.append(sub)
                self._register(sub)
                continue
            if isinstance(n, ast.Lambda):
                sub = FuncInfo(f"{fi.qualname}.<lambda>", n, fi.cls, fi.mod, fi)
                fi.nested.append(sub)
                self._register(sub)
                continue
            stack[0:0] = list(ast.iter_child_nodes(n))

    # ------------------------------------------------------------------ lookup
    def func(self, qualname: str) -> FuncInfo:
        if qualname not in self.funcs:
            raise AnchorMissing(f"function {qualname} not found")
        return self.funcs[qualname]

    def has_func(self, qualname):
        return qualname in self.funcs

    def cls(self, name: str) -> ClassInfo:
        if name not in self.classes:
            raise AnchorMissing(f"class {name} not found")
        return self.classes[name]

    def mro(self, name: str):
        out, seen, todo = [], set(), [name]
        while todo:
            c = todo.pop(0)
            if c in seen or c not in self.classes:
                continue
            seen.add(c)
            out.append(self.classes[c])
            todo.extend(self.classes[c].bases)
        return out

    def lookup_method(self, clsname: str, mname: str):
        for ci in self.mro(clsname):
            if mname in ci.methods:
                return ci.methods[mname]
        return None

    def methods_named(self, mname: str):
        return [ci.methods[mname] for ci in self.classes.values() if mname in ci.methods]

    def owner(self, node) -> FuncInfo | None:
        """Innermost function containing `node`."""
        n = node
        while n is not None:
            fi = self.func_of_node.get(id(n))
            if fi is not None and n is not node:
                return fi
            n = getattr(n, 'parent', None)
        return None

    def functions(self, module_rel=None):
        return [f for f in self.funcs.values() if module_rel is None or f.mod.rel == module_rel]

    def core_modules(self):
        return [self.modules['pyplate/pyplate.py'], self.modules['pyplate/slicer.py']]

    def instance_attrs(self, clsname: str) -> set[str]:
        """Attributes an instance of the class may have: class attributes, methods, properties and every
        `self.x = ..` in any method of the class or its bases."""
        out = set()
        for ci in self.mro(clsname):
            out |= ci.class_attrs | set(ci.methods) | set(ci.setters)
            for m in list(ci.methods.values()) + list(ci.setters.values()):
                a = m.node.args
                allp = a.posonlyargs + a.args
                if m.is_static or not allp:
                    continue
                selfname = allp[0].arg
                for n in ast.walk(m.node):
                    if isinstance(n, ast.Attribute) and isinstance(n.ctx, ast.Store) and \
                            isinstance(n.value, ast.Name) and n.value.id == selfname:
                        out.add(n.attr)
        return out


def walk_no_nested(node):
    """ast.walk that does not descend into nested function definitions / lambdas / classes."""
    todo = list(ast.iter_child_nodes(node))
    while todo:
        n = todo.pop()
        yield n
        if isinstance(n, (ast.FunctionDef, ast.AsyncFunctionDef, ast.Lambda, ast.ClassDef)):
            continue
        todo.extend(ast.iter_child_nodes(n))


def enclosing_stmt(node):
    n = node
    while n is not None and not isinstance(n, ast.stmt):
        n = getattr(n, 'parent', None)
    return n


def unparse(n, limit=140):
    try:
        s = ast.unparse(n)
    except Exception:
        s = repr(n)
    s = ' '.join(s.split())
    return s if len(s) <= limit else s[:limit - 3] + '...'
